(** C10 oracles: the trashbin life-cycle read off the observations alone (handler log,
    clock, retention in force, bus timestamps, cache contents and queue at the end of
    every iteration).  The client model is not used. *)
From Hermes Require Export Corr.RunClient.

Record tst := TSt { t_live : world; t_trash : world; t_nrem : gmap (N * Z) nat (* removals applied so far *) }.
Definition in_w (w : world) (i : N * Z) : bool := match w !! i with Some _ => true | None => false end.

(** bus facts *)
Definition removed_ts (bus : list (Z * cev)) (i : N * Z) : list Z :=
  omap (fun p => match ce_kind (snd p) with
                 | KRemoved => if id_in (ce_id (snd p)) [i] then Some (ce_ts (snd p)) else None
                 | _ => None end) bus.
Fixpoint added_after_last_removed (bus : list (Z * cev)) (i : N * Z) (acc : bool) : bool :=
  match bus with
  | [] => acc
  | (_, e) :: r =>
      if id_in (ce_id e) [i] then
        match ce_kind e with
        | KRemoved => added_after_last_removed r i false
        | KAdded _ => added_after_last_removed r i true
        | _ => added_after_last_removed r i acc
        end
      else added_after_last_removed r i acc
  end.

Definition nth_world (it : citer) (n : nat) : world := nth n (ci_worlds it) ∅.
Definition stored_ts (c : ccfg) (w : world) (i : N * Z) : option Z :=
  match w !! i with Some o => match o !! cc_ts c with Some (VInt z) => Some z | _ => None end | None => None end.

(** A. the timestamp kept with a trashed object is the bus timestamp of one of its
    'removed' events *)
Definition c10_stored_ts (c : ccfg) (it : citer) : bool :=
  forallb (fun io => match snd io !! cc_ts c with
                     | Some (VInt z) => existsb (Z.eqb z) (removed_ts (ci_bus it) (fst io))
                     | _ => false end)
          (map_to_list (nth_world it 1)).

(** G. retention 0: never both live and trashed, in any of the four cache pairs *)
Definition overlap (a b : world) : list (N * Z) :=
  map fst (List.filter (fun io => in_w b (fst io)) (map_to_list a)).
(** 11: overlap in the actual caches; 14: overlap in the expected-state (complete) caches
    of objects removed and re-added on the bus (finding F5: the re-add is simulated while the
    removal of the earlier life is still queued); 15: any other overlap there *)
Definition c10_disjoint (it : citer) : list Z :=
  let act := overlap (nth_world it 0) (nth_world it 1) ++ overlap (nth_world it 4) (nth_world it 5) in
  let cpl := overlap (nth_world it 2) (nth_world it 3) ++ overlap (nth_world it 6) (nth_world it 7) in
  let re := readded_go (ci_bus it) [] in
  (match act with [] => [] | _ => [11%Z] end)
  ++ (if existsb (fun i => id_in i re) cpl then [14%Z] else [])
  ++ (if existsb (fun i => negb (id_in i re)) cpl then [15%Z] else []).

(** B, C, D, F over the calls of one iteration; [prev_rtrash] is the remote trashbin
    observed at the end of the previous iteration *)
Definition is_ok (cl : call) : bool := hres_eqb (cl_out cl) HOk.
Definition tstep (c : ccfg) (s : tst) (cl : call) : tst :=
  if negb (is_ok cl) then s else
  let i := (cl_t cl, cl_k cl) in
  match cl_kind cl with
  | HAdded => match cl_new cl with Some o => TSt (<[i := o]> (t_live s)) (t_trash s) (t_nrem s) | None => s end
  | HModified => match cl_new cl with Some o => TSt (<[i := o]> (t_live s)) (t_trash s) (t_nrem s) | None => s end
  | HRecycled => match cl_new cl with Some o => TSt (<[i := o]> (t_live s)) (delete i (t_trash s)) (t_nrem s) | None => s end
  | HTrashed => match t_live s !! i with
                | Some o => TSt (delete i (t_live s)) (<[i := o]> (t_trash s)) (<[i := S (default O (t_nrem s !! i))]> (t_nrem s))
                | None => s end
  | HRemoved => TSt (delete i (t_live s)) (delete i (t_trash s))
                    (if in_w (t_live s) i then <[i := S (default O (t_nrem s !! i))]> (t_nrem s) else t_nrem s)
  end.

Definition early (c : ccfg) (it : citer) (prev_rtrash : world) (i : N * Z) : bool :=
  match ci_ret it with
  | None => false
  | Some r =>
      match stored_ts c prev_rtrash i with
      | Some z => negb (z + r <=? ci_now it)%Z
      | None => negb (existsb (fun z => (z + r <=? ci_now it)%Z) (removed_ts (ci_bus it) i))
      end
  end.

(** verdict of one call: a list of violated clause numbers (empty = fine) *)
Definition c10_call (c : ccfg) (it : citer) (prev_rtrash : world) (s : tst) (cl : call)
           (purged_before : list (N * Z)) (next_on_obj : option call) : list Z :=
  let i := (cl_t cl, cl_k cl) in
  let has_r := match ci_ret it with Some _ => true | None => false end in
  match cl_kind cl with
  | HTrashed => if has_r then [] else [1%Z]                       (* R=0: removals are immediate *)
  | HRemoved =>
      if in_w (t_trash s) i then
        (if is_ok cl && early c it prev_rtrash i then [2%Z] else [])   (* definitive removal before retention *)
        ++ (if negb (cl_retry cl) &&
               existsb (fun p => id_in p purged_before) (ancestors c (S (length (cc_types c))) (cl_t cl)
                                                                    (default ∅ (t_trash s !! i)))
            then [3%Z] else [])                                   (* a parent was purged before this child *)
      else if in_w (t_live s) i then (if has_r then [4%Z] else [])  (* R>0: a removal is applied as 'trashed' *)
      else []
  | HAdded => if in_w (t_trash s) i
              then (if negb has_r && cl_retry cl then [17%Z] else [5%Z])  (* never 'added' while in the trashbin;
                        17: a queued re-add retried after retention was switched to 0 (finding F23) *)
              else []
  | HRecycled =>
      (if in_w (t_trash s) i && has_r then [] else [6%Z])
      ++ (match t_trash s !! i, cl_new cl with
          | Some tr, Some o => if obj_eqb tr o then [] else [7%Z]   (* recycled as it was trashed *)
          | _, _ => [] end)
      ++ (if is_ok cl then
            match next_on_obj, cl_new cl with
            | Some nx, Some tr =>
                match cl_kind nx, cl_attrs nx, cl_new nx, cl_old nx with
                | HModified, KModified d, Some n, Some o =>
                    if obj_eqb o tr && mdiff_eqb d (odiff n tr) then []
                    else if cl_retry cl then [16%Z]   (* the re-add itself had been queued (finding F5) *)
                    else [8%Z]                        (* exactly the differences *)
                | _, _, _, _ => [] end
            | _, _ => [] end
          else [])
  | HModified => []
  end.

Fixpoint next_call_on (i : N * Z) (cls : list call) : option call :=
  match cls with
  | [] => None
  | cl :: r => if id_in (cl_t cl, cl_k cl) [i] then Some cl else next_call_on i r
  end.

(** a successful 'removed' ends the last life of the object on the bus: as many removals
    applied as 'removed' events delivered, and no 'added' after the last of them *)
Definition final_removal (it : citer) (s' : tst) (i : N * Z) : bool :=
  Nat.eqb (default O (t_nrem s' !! i)) (length (removed_ts (ci_bus it) i))
  && negb (added_after_last_removed (ci_bus it) i false).

Fixpoint c10_calls (c : ccfg) (it : citer) (prev_rtrash : world) (s : tst) (cls later : list call)
         (purged : list (N * Z)) : list Z * tst * list (N * Z) :=
  match cls with
  | [] => ([], s, [])
  | cl :: r =>
      let i := (cl_t cl, cl_k cl) in
      let v := c10_call c it prev_rtrash s cl purged (next_call_on i (r ++ later)) in
      let purged' := match cl_kind cl with
                     | HRemoved => if in_w (t_trash s) i && negb (cl_retry cl) then i :: purged else purged
                     | _ => purged end in
      let s1 := tstep c s cl in
      let fin := match cl_kind cl with
                 | HRemoved => if is_ok cl && (in_w (t_trash s) i || in_w (t_live s) i) && final_removal it s1 i
                               then [i] else []
                 | _ => [] end in
      let '(vs, s', fs) := c10_calls c it prev_rtrash s1 r later purged' in
      (v ++ vs, s', fin ++ fs)
  end.

(** E. an object whose retention was over when the iteration started is handed to the
    'removed' handler during the iteration (or its removal is in the queue, or the
    iteration ended on an exception) *)
Definition c10_purged_in_time (c : ccfg) (it : citer) (prev_rtrash : world) (s0 : tst) : bool :=
  ci_exc it ||
  forallb (fun io =>
     let i := fst io in
     let due := match ci_ret it with
                | None => true
                | Some r => match stored_ts c prev_rtrash i with
                            | Some z => (z + r <? ci_now it)%Z
                            | None => false end
                end in
     negb due
     || existsb (fun cl => id_in (cl_t cl, cl_k cl) [i]) (ci_calls it)
     || existsb (fun q => id_in (ce_id (oq_local q)) [i]) (ci_queue it))
   (map_to_list (t_trash s0)).

(** H. nothing remains of a definitively removed object that is not re-added on the bus *)
Definition gone_everywhere (it : citer) (i : N * Z) : bool :=
  forallb (fun w => negb (in_w w i)) (ci_worlds it)
  && negb (existsb (fun q => id_in (ce_id (oq_local q)) [i]) (ci_queue it)).
Definition c10_nothing_remains (it : citer) (finals : list (N * Z)) : bool :=
  ci_exc it || forallb (gone_everywhere it) finals.

Fixpoint c10_iters (c : ccfg) (s : tst) (prev_rtrash : world) (its : list citer) (later : list call) : list Z :=
  match its with
  | [] => []
  | it :: r =>
      let later' := flat_map ci_calls r in
      let '(vs, s', finals) := c10_calls c it prev_rtrash s (ci_calls it) later' [] in
      vs
      ++ (if c10_stored_ts c it then [] else [10%Z])
      ++ (match ci_ret it with Some _ => [] | None => c10_disjoint it end)
      ++ (if c10_purged_in_time c it prev_rtrash s then [] else [12%Z])
      ++ (if c10_nothing_remains it finals then [] else [13%Z])
      ++ c10_iters c s' (nth_world it 1) r later'
  end.
Definition c10_violations (x : ccase) : list Z :=
  remove_dups (c10_iters (k_cfg x) (TSt ∅ ∅ ∅) ∅ (k_iters x) []).
Definition c10_case (x : ccase) : bool := match c10_violations x with [] => true | _ => false end.
(** sub-oracles used for the signatures of the known findings *)
Definition c10_only (allowed : list Z) (x : ccase) : bool :=
  forallb (fun v => existsb (Z.eqb v) allowed) (c10_violations x).
Definition c10_clause (k : Z) (x : ccase) : bool := negb (existsb (Z.eqb k) (c10_violations x)).
(* debugging aid: iterations (0-based) at which an object is both live and trashed *)
Definition c10_dwhere (x : ccase) : list (nat * list (nat * list (N * Z))) :=
  omap (fun p => let it := snd p in
          let f a b := map fst (List.filter (fun io => in_w (nth_world it b) (fst io)) (map_to_list (nth_world it a))) in
          match List.filter (fun q => match snd q with [] => false | _ => true end)
                            [(0, f 0 1); (2, f 2 3); (4, f 4 5); (6, f 6 7)]%nat with
          | [] => None | l => Some (fst p, l) end)
       (imap (fun i it => (i, it)) (k_iters x)).
(* debugging aid: per iteration, the final removals that leave something behind *)
Definition c10_rwhere (x : ccase) : list (nat * list (N * Z)) :=
  (fix go (c : ccfg) (s : tst) (prev : world) (its : list citer) (n : nat) :=
     match its with
     | [] => []
     | it :: r =>
         let later' := flat_map ci_calls r in
         let '(vs, s', finals) := c10_calls c it prev s (ci_calls it) later' [] in
         (if ci_exc it then [] else
          match List.filter (fun i => negb (gone_everywhere it i)) finals with [] => [] | l => [(n, l)] end)
         ++ go c s' (nth_world it 1) r (S n)
     end) (k_cfg x) (TSt ∅ ∅ ∅) ∅ (k_iters x) 0%nat.

(** graceful stops with the trashbin on (C11): the trashbin life cycle of every object as the
    C10 clauses demand it (no handler invoked out of turn or twice) and the drained final state:
    queue empty, nothing raised, local data = mapped projection of the replayed bus = replayed
    target. The expected-state copies are left out: between a 'recycled' and the queued 'modified'
    that carries the differences the expected-state local cache lags behind by design, and it
    loses the object for good when that object is removed and re-added meanwhile - in a healthy
    run too, so the uninterrupted run C11 compares with shows the same. *)
Definition c11_trash_case (x : ccase) : bool := c10_case x && c08_healed_case x.

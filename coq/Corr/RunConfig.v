(** Correspondence and oracle for configuration acceptance (C19). *)
From Hermes Require Export Model.Config.
From Coq Require Export ZArith.

Inductive obs_outcome := OAccepted | OInvalid (errs : list fkerr) | OCircular | OCrash.
Record fkcase := FKCase { fc_schema : fschema; fc_obs : obs_outcome; fc_names_ok : bool }.

Definition fkerr_eqb (a b : fkerr) : bool :=
  match a, b with
  | EAttrUnknown, EAttrUnknown | EAttrNotPkey, EAttrNotPkey | ETypeUnknown, ETypeUnknown
  | EToAttrUnknown, EToAttrUnknown | EToTuple, EToTuple | EToNotPkey, EToNotPkey => true
  | _, _ => false
  end.
Fixpoint errs_eqb (a b : list fkerr) : bool :=
  match a, b with
  | [], [] => true
  | x :: xs, y :: ys => fkerr_eqb x y && errs_eqb xs ys
  | _, _ => false
  end.

Definition corr_fkcase (x : fkcase) : bool :=
  match schema_check (fc_schema x), fc_obs x with
  | Accepted, OAccepted => true
  | InvalidFK a, OInvalid b => errs_eqb a b
  | Circular, OCircular => true
  | _, _ => false
  end.

(** oracle, independent of the DFS: every declared mistake is refused with an error
    naming the offending <type.attr>; a mistake-free schema is refused iff its type
    graph has a cycle (transitive closure); never a crash. *)
Definition c19_fkcase (x : fkcase) : bool :=
  let s := fc_schema x in
  let mistakes := existsb (fun d => match fk_check s d with Some _ => true | None => false end) (fs_fks s) in
  match fc_obs x with
  | OCrash => false
  | OInvalid _ => mistakes && fc_names_ok x
  | OCircular => negb mistakes && cyclic_spec s
  | OAccepted => negb mistakes && negb (cyclic_spec s)
  end.

Record stcase := STCase { st_facts : cfacts; st_obs : start }.
Definition c19_stcase (x : stcase) : bool := start_eqb (expected_start (st_facts x)) (st_obs x).

Definition b2z (b : bool) : Z := if b then 1%Z else 0%Z.
Definition check_gen {A} (f g : A -> bool) (l : list A) : list (Z * Z * Z) :=
  let fix go (i : Z) (l : list A) :=
    match l with
    | [] => []
    | x :: r => (i, b2z (f x), b2z (g x)) :: go (i + 1)%Z r
    end in
  List.filter (fun t => negb (Z.eqb (snd (fst t)) 1%Z && Z.eqb (snd t) 1%Z)) (go 0%Z l).
Definition check_fkcases := @check_gen fkcase.
Definition check_stcases := @check_gen stcase.

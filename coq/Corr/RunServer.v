(** Correspondence and oracles for server runs (C01-C04, C15 server side). *)
From Hermes Require Export Corr.Eqb.

Record sobs := SObs {
  o_trace : list action;   (* what the producer / datasource doubles saw *)
  o_mem : world;           (* server memory cache after the step *)
  o_disk : world           (* cache files after the step *)
}.
Record scase := SCase { sc_cfg : cfg; sc_steps : list sstep; sc_obs : list sobs }.

(** model = code: trace, memory cache, and disk = saved projection of memory *)
Fixpoint corr_steps (c : cfg) (st : sstate) (steps : list sstep) (obs : list sobs) : bool :=
  match steps, obs with
  | [], [] => true
  | s :: r, ob :: ro =>
      let '(st', tr) := sstep_run c st s in
      list_eqb action_eqb tr (o_trace ob)
      && world_eqb (s_mem st') (o_mem ob)
      && world_eqb (jsn c (s_mem st')) (o_disk ob)
      && corr_steps c st' r ro
  | _, _ => false
  end.
Definition corr_case (x : scase) : bool := corr_steps (sc_cfg x) sinit (sc_steps x) (sc_obs x).

Definition has_refusal (tr : list action) : bool :=
  existsb (fun a => match a with ARefused _ => true | _ => false end) tr.
Definition isync_complete (tr : list action) : bool :=
  existsb (fun a => match a with AInitStop => true | _ => false end) tr.

(** strip secret attributes of every object (what an initsync may carry) *)
Definition nosecret (c : cfg) (w : world) : world :=
  wmap c (fun tc o => ofilter (fun a => mem a (t_secret tc)) o) w.

(** C01 oracle, model independent: only observed events and observed views.
    [B] = bus state replayed from the first (silent) poll;
    [J] = state replayed from the latest complete initsync sequence. *)
Fixpoint c01_oracle (c : cfg) (B J : option world) (steps : list sstep) (obs : list sobs) : bool :=
  match steps, obs with
  | s :: r, ob :: ro =>
      match s with
      | SRestart => c01_oracle c B J r ro
      | SPoll isync openfail view _ _ =>
          let tr := o_trace ob in
          let evs := base_events tr in
          let J1 := if isync && isync_complete tr then Some (replay (isync_events tr) ∅) else J in
          let isync_ok :=
            if isync && isync_complete tr then
              match B with
              | Some b => world_eqb (nosecret c (replay (isync_events tr) ∅)) (nosecret c b)
              | None => true end
            else true in
          let polled := negb openfail && (negb isync || isync_complete tr) in
          if negb polled then isync_ok && c01_oracle c B J1 r ro else
          match B with
          | None => (* first, silent poll: the bus starts from this view *)
              match evs with [] => true | _ => false end
              && c01_oracle c (Some (vis c view)) J1 r ro
          | Some b =>
              let b' := replay evs b in
              let J2 := option_map (replay evs) J1 in
              let complete := negb (has_refusal tr) in
              isync_ok
              && (if complete then world_eqb b' (vis c view) else true)
              && (if complete then match J2 with
                                   | Some j => world_eqb (nosecret c j) (nosecret c (vis c view))
                                   | None => true end else true)
              && c01_oracle c (Some b') J2 r ro
          end
      end
  | _, _ => true
  end.
Definition c01_case (x : scase) : bool := c01_oracle (sc_cfg x) None None (sc_steps x) (sc_obs x).

(** C04 oracle: strict replay of everything the bus accepted never repeats or
    skips; after every step the disk equals the saved projection of what was accepted. *)
Fixpoint c04_oracle (c : cfg) (B : option world) (steps : list sstep) (obs : list sobs) : bool :=
  match steps, obs with
  | s :: r, ob :: ro =>
      match s with
      | SRestart => c04_oracle c B r ro
      | SPoll isync openfail view _ _ =>
          let tr := o_trace ob in
          let evs := base_events tr in
          let polled := negb openfail && (negb isync || isync_complete tr) in
          if negb polled then
            match evs with [] => c04_oracle c B r ro | _ => false end
          else
          match B with
          | None => match evs with [] => true | _ => false end
                    && world_eqb (jsn c view) (o_disk ob)
                    && c04_oracle c (Some (vis c view)) r ro
          | Some b =>
              match strict_replay evs b with
              | None => false
              | Some b' =>
                  (if negb (has_refusal tr) then world_eqb (nosecret c b') (nosecret c (vis c view)) else true)
                  && world_eqb (nosecret c b') (nosecret c (vis c (o_disk ob)))
                  && c04_oracle c (Some b') r ro
              end
          end
      end
  | _, _ => true
  end.
Definition c04_state_case (x : scase) : bool := c04_oracle (sc_cfg x) None (sc_steps x) (sc_obs x).

Definition check_cases (f g : scase -> bool) (l : list scase) : list (Z * Z * Z) :=
  let fix go (i : Z) (l : list scase) :=
    match l with
    | [] => []
    | x :: r => (i, b2z (f x), b2z (g x)) :: go (i + 1)%Z r
    end in
  List.filter (fun t => negb (Z.eqb (snd (fst t)) 1%Z && Z.eqb (snd t) 1%Z)) (go 0%Z l).

(** Debug views (lists instead of maps) used by ./check --replay *)
Definition show_obj (o : obj) := map_to_list o.
Definition show_world (w : world) := map (fun p => (fst p, show_obj (snd p))) (map_to_list w).
Inductive skind := SAdded (a : list (N * value)) | SModified (a m r : list (N * value)) | SRemoved.
Definition show_event (e : event) :=
  (e_t e, e_k e, match e_kind e with
                 | KAdded a => SAdded (show_obj a)
                 | KModified d => SModified (show_obj (md_a d)) (show_obj (md_m d)) (show_obj (md_r d))
                 | KRemoved => SRemoved end).
Inductive saction := SA_InitStart | SA_InitStop | SA_Send (i : bool) (e : N * Z * skind)
  | SA_Refused (e : option (N * Z * skind)) | SA_CommitOne (t : N) (k : Z) | SA_CommitAll (t : N).
Definition show_action (a : action) : saction :=
  match a with
  | AInitStart => SA_InitStart | AInitStop => SA_InitStop
  | ASend i e => SA_Send i (show_event e)
  | ARefused e => SA_Refused (option_map show_event e)
  | ACommitOne t k => SA_CommitOne t k | ACommitAll t => SA_CommitAll t
  end.
Definition show_model (x : scase) :=
  map (fun p => (map show_action (snd p), show_world (s_mem (fst p)))) (srun (sc_cfg x) sinit (sc_steps x)).
Definition show_observed (x : scase) :=
  map (fun ob => (map show_action (o_trace ob), show_world (o_mem ob), show_world (o_disk ob))) (sc_obs x).

Fixpoint corr_detail (c : cfg) (st : sstate) (steps : list sstep) (obs : list sobs) : list (bool * bool * bool) :=
  match steps, obs with
  | s :: r, ob :: ro =>
      let '(st', tr) := sstep_run c st s in
      (list_eqb action_eqb tr (o_trace ob), world_eqb (s_mem st') (o_mem ob),
       world_eqb (jsn c (s_mem st')) (o_disk ob)) :: corr_detail c st' r ro
  | _, _ => []
  end.
Definition corr_detail_case (x : scase) := corr_detail (sc_cfg x) sinit (sc_steps x) (sc_obs x).

(** C03 oracle: every prefix of the observed stream is referentially closed. *)
Definition fk_parent_key (o : obj) (a : N) : option Z :=
  match o !! a with Some (VInt z) => Some z | _ => None end.
Definition obj_closed (c : cfg) (w : world) (t : N) (o : obj) : bool :=
  match lookup_tcfg c t with
  | Some tc => forallb (fun ap => match fk_parent_key o (fst ap) with
                                  | Some pk => match w !! (snd ap, pk) with Some _ => true | None => false end
                                  | None => false end) (t_fks tc)
  | None => true
  end.
Definition closed (c : cfg) (w : world) : bool :=
  forallb (fun p => obj_closed c w (fst (fst p)) (snd p)) (map_to_list w).
Fixpoint closed_prefixes (c : cfg) (w : world) (evs : list event) : bool :=
  match evs with
  | [] => true
  | e :: r => let w' := apply_ev w e in closed c w' && closed_prefixes c w' r
  end.
(** one object's events never cross within a cycle: at most one per cycle *)
Fixpoint ids_distinct (l : list (N * Z)) : bool :=
  match l with [] => true | x :: r => negb (existsb (id_eqb x) r) && ids_distinct r end.

Fixpoint c03_oracle (c : cfg) (B : option world) (steps : list sstep) (obs : list sobs) : bool :=
  match steps, obs with
  | s :: r, ob :: ro =>
      match s with
      | SRestart => c03_oracle c B r ro
      | SPoll isync openfail view _ _ =>
          let tr := o_trace ob in
          let evs := base_events tr in
          let isync_ok := closed_prefixes c ∅ (isync_events tr) in
          let polled := negb openfail && (negb isync || isync_complete tr) in
          if negb polled then isync_ok && c03_oracle c B r ro else
          match B with
          | None => c03_oracle c (Some (vis c view)) r ro
          | Some b =>
              (* the guarantee is conditional on the views themselves being closed *)
              (if closed c b then closed_prefixes c b evs else true)
              && isync_ok && ids_distinct (map ev_id evs)
              && c03_oracle c (Some (replay evs b)) r ro
          end
      end
  | _, _ => true
  end.
Definition c03_case (x : scase) : bool := c03_oracle (sc_cfg x) None (sc_steps x) (sc_obs x).

(** C02 oracle on observed events: each event is *the* diff event between the
    bus state before the cycle and the view (exactness + minimality + silence). *)
Definition is_diff_event (c : cfg) (n o : world) (e : event) : bool :=
  match lookup_tcfg c (e_t e) with
  | None => false
  | Some tc =>
      match e_kind e, n !! ev_id e, o !! ev_id e with
      | KAdded a, Some no, None => obj_eqb a (vis_obj tc no)
      | KModified d, Some no, Some oo =>
          negb (md_empty d) && mdiff_eqb d (odiff (vis_obj tc no) oo)
      | KRemoved, None, Some _ => true
      | _, _, _ => false
      end
  end.
Fixpoint c02_oracle (c : cfg) (B : option world) (steps : list sstep) (obs : list sobs) : bool :=
  match steps, obs with
  | s :: r, ob :: ro =>
      match s with
      | SRestart => c02_oracle c B r ro
      | SPoll isync openfail view _ _ =>
          let tr := o_trace ob in
          let evs := base_events tr in
          let polled := negb openfail && (negb isync || isync_complete tr) in
          if negb polled then c02_oracle c B r ro else
          match B with
          | None => match evs with [] => true | _ => false end && c02_oracle c (Some (vis c view)) r ro
          | Some b =>
              forallb (is_diff_event c view b) evs && ids_distinct (map ev_id evs)
              && (if negb (has_refusal tr) then world_eqb (replay evs b) (vis c view) else true)
              && c02_oracle c (Some (replay evs b)) r ro
          end
      end
  | _, _ => true
  end.
Definition c02_case (x : scase) : bool := c02_oracle (sc_cfg x) None (sc_steps x) (sc_obs x).

(** C04 commit oracle: commit_one directly after each accepted send of a type that
    declares it, nothing after a refusal, commit_all exactly for the declaring types
    after a complete non-silent cycle and never otherwise. *)
Definition observed_commit_alls (tr : list action) : list N :=
  omap (fun a => match a with ACommitAll t => Some t | _ => None end) tr.
Definition c04_commits (c : cfg) (silent complete : bool) (tr : list action) : bool :=
  commits_follow_sends c tr && no_send_after_commit_all false tr
  && list_eqb N.eqb (observed_commit_alls tr)
       (if silent || negb complete then []
        else omap (fun tc => if t_commit_all tc then Some (t_id tc) else None) c).

Fixpoint c04_commit_oracle (c : cfg) (first : bool) (steps : list sstep) (obs : list sobs) : bool :=
  match steps, obs with
  | s :: r, ob :: ro =>
      match s with
      | SRestart => c04_commit_oracle c first r ro
      | SPoll isync openfail view _ _ =>
          let tr := o_trace ob in
          let polled := negb openfail && (negb isync || isync_complete tr) in
          if negb polled then c04_commits c true false tr && c04_commit_oracle c first r ro
          else c04_commits c first (negb (has_refusal tr)) tr
               && c04_commit_oracle c (first && has_refusal tr) r ro
      end
  | _, _ => true
  end.
Definition c04_case (x : scase) : bool :=
  c04_state_case x && c04_commit_oracle (sc_cfg x) true (sc_steps x) (sc_obs x).

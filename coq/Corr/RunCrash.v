(** Correspondence and oracle for a server crash at a given operation (C05). *)
From Hermes Require Export Corr.RunServer.

Record ccase := CCase {
  cc_cfg : cfg;
  cc_o : world;          (* published cache the interrupted process started from *)
  cc_n : world;          (* view of the interrupted poll *)
  cc_saved : world;      (* what a restart loads from the cache files after the kill *)
  cc_loadable : bool;    (* every cache file could be loaded *)
  cc_pre : list event;   (* events accepted by the bus before the kill *)
  cc_n' : world;         (* view of the poll after the restart *)
  cc_post : list event;  (* events of that poll *)
  cc_hint : list (N * Z)
}.

Definition oobj_eqb (a b : option obj) : bool :=
  match a, b with Some x, Some y => obj_eqb x y | None, None => true | _, _ => false end.
Definition ids_of (w : world) : list (N * Z) := map fst (map_to_list w).
Definition in_events (e : event) (l : list event) : bool := existsb (event_eqb e) l.

(** model = code: the recovery poll diffs the view against what was loaded; the
    interrupted poll sent a duplicate-free part of its cycle *)
Definition corr_ccase (x : ccase) : bool :=
  let c := cc_cfg x in
  list_eqb event_eqb (gen_events_h c (cc_hint x) (cc_n' x) (cc_saved x)) (cc_post x)
  && forallb (fun e => in_events e (gen_events_h c [] (cc_n x) (cc_o x))) (cc_pre x)
  && ids_distinct (map ev_id (cc_pre x)).

(** the property: files loadable, each object's saved state complete (old or new), and
    after the recovery poll the bus replay equals the view *)
Definition saved_ok (x : ccase) : bool :=
  forallb (fun i => oobj_eqb (cc_saved x !! i) (cc_o x !! i)
                    || oobj_eqb (cc_saved x !! i) (jsn (cc_cfg x) (cc_n x) !! i))
          (ids_of (cc_saved x) ++ ids_of (cc_o x) ++ ids_of (cc_n x)).
Definition c05_ccase (x : ccase) : bool :=
  cc_loadable x && saved_ok x
  && world_eqb (replay (cc_pre x ++ cc_post x) (vis (cc_cfg x) (cc_o x))) (vis (cc_cfg x) (cc_n' x)).

(** hypothesis of the recovery theorem, evaluated on the case: in-flight objects
    (event sent, state not saved) are unchanged at the next poll *)
Definition inflight_stable (x : ccase) : bool :=
  forallb (fun e => let i := ev_id e in
                    negb (oobj_eqb (cc_saved x !! i) (cc_o x !! i))
                    || oobj_eqb (cc_n' x !! i) (cc_n x !! i)
                    || oobj_eqb (cc_saved x !! i) (jsn (cc_cfg x) (cc_n x) !! i)) (cc_pre x).

Definition check_ccases (f g : ccase -> bool) (l : list ccase) : list (Z * Z * Z) :=
  let fix go (i : Z) (l : list ccase) :=
    match l with
    | [] => []
    | x :: r => (i, b2z (f x), b2z (g x)) :: go (i + 1)%Z r
    end in
  List.filter (fun t => negb (Z.eqb (snd (fst t)) 1%Z && Z.eqb (snd t) 1%Z)) (go 0%Z l).

(** Correspondence and oracles for serialisation (C16) and cache files (C05/C16). *)
From Hermes Require Export Corr.RunServer Model.Serial Model.Disk.

(** base64 is CPython's: each case carries the table of the (bytes, text) pairs it needs *)
Definition tbl_enc (t : list (str * str)) (b : str) : str :=
  match List.find (fun p => str_eqb (fst p) b) t with Some p => snd p | None => [] end.
Definition tbl_dec (t : list (str * option str)) (s : str) : option str :=
  match List.find (fun p => str_eqb (fst p) s) t with Some p => snd p | None => None end.

Record vcase := VCase { vc_enc : list (str * str); vc_dec : list (str * option str);
                        vc_value : value; vc_reloaded : value }.
Definition corr_vcase (x : vcase) : bool :=
  veqb (decode (tbl_dec (vc_dec x)) (encode (tbl_enc (vc_enc x)) (vc_value x))) (vc_reloaded x).
Definition c16_vcase (x : vcase) : bool := veqb (vc_value x) (vc_reloaded x).

(** cache-file histories: saves under changing compression settings, then a load *)
Record dcase := DCase { dc_backups : nat; dc_saves : list (bool * Z); dc_load_compress : bool;
                        dc_loaded : loaded }.
Definition loaded_eqb (a b : loaded) : bool :=
  match a, b with
  | LEmpty, LEmpty | LCorrupt, LCorrupt => true
  | LContent x, LContent y => Z.eqb x y
  | _, _ => false end.
Definition run_saves (backups : nat) (saves : list (bool * Z)) : fsys :=
  fold_left (fun fs sc => fs_run fs (save_ops fs (fst sc) backups (negb (Nat.eqb backups 0)) 5%Z (snd sc))) saves [].
Definition corr_dcase (x : dcase) : bool :=
  loaded_eqb (load (run_saves (dc_backups x) (dc_saves x)) (dc_load_compress x) 5%Z) (dc_loaded x).
Definition c16_dcase (x : dcase) : bool :=
  match rev (dc_saves x) with
  | [] => loaded_eqb (dc_loaded x) LEmpty
  | (_, c) :: _ => loaded_eqb (dc_loaded x) (LContent c)
  end.

(** restart silence on server runs: a poll whose view equals the previous one emits
    nothing, except - right after a restart - the re-announcement of secret attributes *)
Definition secret_only (c : cfg) (e : event) : bool :=
  match e_kind e, lookup_tcfg c (e_t e) with
  | KModified d, Some tc =>
      is_empty_map (md_m d) && is_empty_map (md_r d)
      && forallb (fun kv => mem (fst kv) (t_secret tc)) (map_to_list (md_a d))
  | _, _ => false
  end.
Fixpoint c16_restart (c : cfg) (prev : option world) (restarted : bool)
         (steps : list sstep) (obs : list sobs) : bool :=
  match steps, obs with
  | s :: r, ob :: ro =>
      match s with
      | SRestart => c16_restart c prev true r ro
      | SPoll _ openfail view _ _ =>
          if openfail then c16_restart c prev restarted r ro else
          let evs := base_events (o_trace ob) in
          (match prev with
           | Some p => if world_eqb p view
                       then (if restarted then forallb (secret_only c) evs
                             else match evs with [] => true | _ => false end)
                       else true
           | None => true end)
          && c16_restart c (Some view) false r ro
      end
  | _, _ => true
  end.
Definition c16_scase (x : scase) : bool := c16_restart (sc_cfg x) None false (sc_steps x) (sc_obs x).

Definition check_gen {A} (f g : A -> bool) (l : list A) : list (Z * Z * Z) :=
  let fix go (i : Z) (l : list A) :=
    match l with
    | [] => []
    | x :: r => (i, b2z (f x), b2z (g x)) :: go (i + 1)%Z r
    end in
  List.filter (fun t => negb (Z.eqb (snd (fst t)) 1%Z && Z.eqb (snd t) 1%Z)) (go 0%Z l).
Definition check_vcases := @check_gen vcase.
Definition check_dcases := @check_gen dcase.
